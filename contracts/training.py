"""Contracts of Hedger.compute_loss / price / fit / _configure_optimizer and ensemble_mean, shared by
C14 (gradients through the hedger are the true gradients) and C15 (training protocol).

Ghost state:
  * event trace (ctx.events): train/eval, zero_grad, step, backward, simulate(n_paths, init_state) tagged
    with the grad mode and the hedger's training flag, criterion calls tagged likewise;
  * graph connectivity: every tensor carries deps (the parameters it is connected to); a value cut from
    the graph (detach, .item(), results under no_grad) is wrapped in the identity marker `stopgrad`.
C14 then reads: the loss term is connected to every model parameter and contains NO stopgrad around a
parameter-dependent sub-term (autograd of the recorded graph == derivative of the loss function, under
the assumed autograd contract); evaluation-only quantities have no connectivity at all."""
import time

from pfv import terms as tm
from pfv import smt, fc, cutloops
from pfv.framework import Obligation, Verdict, real_exec
from pfv.proxies import explore, SReal, SInt, Unsupported, ctx, lift, PathAbort
import functools as _ft
_explore_raw = explore
explore = _ft.partial(_explore_raw, enforce_bounds=True)     # shim range assumptions (slices / indices) must be provable on every returning path
from contracts import hedging as H

NP, NE = tm.var('n_paths', 'I'), tm.var('n_epochs', 'I')
PARAM_NAMES = ('theta', 'W0', 'b0', 'P0', 'crit_w')

FUNCTIONS = ['pfhedge.nn.modules.hedger.Hedger.fit', 'pfhedge.nn.modules.hedger.Hedger._configure_optimizer', 'pfhedge.nn.modules.hedger.Hedger.compute_loss',
             'pfhedge.nn.modules.hedger.Hedger.price', 'pfhedge.nn.modules.hedger.Hedger.compute_portfolio', 'pfhedge.nn.modules.hedger.Hedger.compute_hedge',
             'pfhedge._utils.operations.ensemble_mean', 'pfhedge._utils.lazy.has_lazy', 'pfhedge._utils.hook.save_prev_output',
             'pfhedge.nn.modules.loss.EntropicRiskMeasure.forward', 'pfhedge.nn.modules.loss.ExpectedShortfall.forward', 'pfhedge.nn.modules.loss.QuadraticCVaR.forward',
             'pfhedge.nn.modules.loss.EntropicLoss.forward', 'pfhedge.nn.modules.loss.IsoelasticLoss.forward', 'pfhedge.nn.modules.loss.OCE.forward',
             'pfhedge.nn.functional.pl', 'pfhedge.nn.functional.entropic_risk_measure', 'pfhedge.nn.functional.expected_shortfall', 'pfhedge.nn.functional.quadratic_cvar']


def mk_sim_derivative(Tc, cost=None, H_=1):
    """A real EuropeanOption whose underlier's simulate() installs a fresh symbolic (n_paths, Tc) series
    and appends a ghost event (n_paths, init_state, grad mode)."""
    import torch
    import pfhedge.instruments as pi
    from pfv.torchlib.tensor import Tensor, norm_int

    class SimStock(pi.BrownianStock):
        def simulate(self, n_paths=1, time_horizon=0.08, init_state=None):
            c = ctx()
            k = sum(1 for e in c.events if e[0] == 'simulate')
            c.event('simulate', id(self), lift(n_paths), init_state, c.grad_enabled, lift(time_horizon))
            name = 'sim%d' % k
            self.register_buffer('spot', Tensor.input(name, (norm_int(n_paths), Tc), torch.float64))
            i_, j_ = c.fresh('pi', 'I'), c.fresh('pj', 'I')
            c.assume(tm.forall(i_, tm.IZERO, lift(n_paths),
                               tm.forall(j_, tm.IZERO, tm.const(Tc, 'I'), tm.gt(tm.sel(name, i_, j_), tm.ZERO))))
    kw = {} if cost is None else {'cost': cost}
    u = SimStock(sigma=SReal(H.SIGMA), dt=SReal(H.DT), dtype=torch.float64, **kw)
    d = pi.EuropeanOption(u, strike=SReal(H.K), maturity=SReal(tm.var('M')))
    return d


def mk_criterion(name):
    import torch
    import pfhedge.nn as pnn
    if name == 'entropic_risk':
        return pnn.EntropicRiskMeasure(a=SReal(tm.var('a_')))
    if name == 'expected_shortfall':
        return pnn.ExpectedShortfall(p=0.25)
    if name == 'entropic_loss':
        return pnn.EntropicLoss(a=SReal(tm.var('a_')))
    if name == 'isoelastic':
        return pnn.IsoelasticLoss(a=0.5)
    if name == 'quadratic_cvar':
        return pnn.QuadraticCVaR(lam=10.0)
    if name == 'oce':
        from pfhedge.nn.modules.loss import OCE
        import pfhedge.nn.functional as F
        return OCE(lambda x: F.exp_utility(x, a=1.0))
    if name == 'mse':
        return torch.nn.MSELoss()
    raise ValueError(name)


class _BisectStub:
    """contract stub for bisect at the call site inside quadratic_cvar: a fresh root tensor that is
    graph-connected to the bracket (lower/upper are built from the input)"""
    def __call__(self, fn=None, target=None, lower=None, upper=None, precision=None, max_iter=None):
        import torch
        from pfv.torchlib.tensor import Tensor
        c = ctx()
        k = sum(1 for e in c.events if e[0] == 'bisect')
        c.event('bisect', k)
        r = Tensor.input('omega%d' % k, lower._shape, lower.dtype, origin='fresh')
        probe = fn(lower)
        r.deps = lower.deps | upper.deps | probe.deps
        if not c.grad_enabled:
            r.deps = frozenset()
        return r


def _with_bisect_stub(fn):
    import pfhedge.nn.functional as F
    old = F.bisect
    F.bisect = _BisectStub()
    try:
        return fn()
    finally:
        F.bisect = old


def _param_dependent_stopgrads(term, pnames):
    bad = []
    for u in tm.subterms(term):
        if u.op == 'app' and u.args[0] == 'stopgrad':
            inner = u.args[1]
            for w in tm.subterms(inner):
                if (w.op == 'sel' and w.args[0] in pnames) or (w.op == 'var' and w.args[0] in pnames) or (w.op == 'app' and w.args[0] == 'M'):
                    bad.append(u)
                    break
    return bad


# ------------------------------------------------------------------ C14

def grad_faithful_ob(crit, stepwise, Hn, eval_mode=False, second_call=False, module_output=False, band=False, param_feature=False, scalar_bound=False):
    tag = '%s,%s,H=%d%s%s%s%s%s%s' % (crit, 'prev_hedge' if stepwise else 'stateless', Hn, ',eval-mode' if eval_mode else '', ',second call' if second_call else '',
                                  ',prev_hedge through a parameter-free ModuleOutput' if module_output else '', ',no-transaction-band model (Clamp with parameter-dependent bounds)' if band else '',
                                  ',trainable ModuleOutput feature' if param_feature else '', ',Clamp with a learnable 0-dim bound' if scalar_bound else '')

    def check():
        t0 = time.time()
        Tc = 3
        hyps = H.DIMS + [tm.ge(NP, tm.const(4, 'I')), tm.ge(tm.var('c1'), tm.ZERO), tm.gt(tm.var('a_'), tm.ZERO), tm.gt(tm.var('M'), tm.ZERO)]
        old = H._set_T(Tc)
        rec = []
        try:
            def run(c):
                del rec[:]
                import pfhedge.nn as pnn
                d = mk_sim_derivative(Tc, cost=SReal(tm.var('c1')))
                feats = ['log_moneyness', 'time_to_maturity'] + (['prev_hedge'] if stepwise else [])
                if module_output:
                    # the recurrent input reaches the model only through a ModuleOutput feature whose module has NO parameters
                    import torch
                    from pfhedge.features import ModuleOutput
                    from pfv.torchlib.tensor import Tensor

                    class ParamFree(torch.nn.Module):
                        def forward(self, x):
                            rd = x.reader()
                            Fn = x._shape[-1]
                            return Tensor.fresh(lambda idx: tm.app('G', *[rd(idx[:-1] + (tm.const(k_, 'I'),)) for k_ in range(Fn)]), x._shape[:-1] + (1,), x.dtype, x.deps)
                    feats = ['log_moneyness', ModuleOutput(ParamFree(), inputs=['prev_hedge', 'time_to_maturity'])]
                model = H.UserModel.make(Hn, record=rec)
                extra_params = []
                if param_feature:
                    # a state-independent feature with its OWN trainable parameter (an encoder in front of the model), together with prev_hedge or not
                    from pfhedge.features import ModuleOutput
                    enc = H.UserModel.make(1, name='E', params=('phi',))
                    extra_params.append('phi')
                    feats = [ModuleOutput(enc, inputs=['log_moneyness', 'time_to_maturity']), 'time_to_maturity'] + (['prev_hedge'] if stepwise else [])
                if scalar_bound:
                    import torch
                    from pfv.torchlib import nn as tn_

                    class Limited(torch.nn.Module):
                        def __init__(self):
                            super().__init__()
                            self.net = H.UserModel.make(Hn)
                            self.limit = tn_.make_parameter('lim', (), torch.float64)
                            self.clamp = pnn.Clamp()

                        def forward(self, x):
                            return self.clamp(self.net(x), -self.limit, self.limit)
                    model = Limited()
                if band:
                    # a no-transaction-band network: the previous hedge clamped into [lo, lo + width], both produced by a parametric net
                    import torch

                    class Band(torch.nn.Module):
                        def __init__(self):
                            super().__init__()
                            self.net = H.UserModel.make(2)
                            self.clamp = pnn.Clamp()

                        def forward(self, x):
                            prev = x[..., [-1]]
                            lw = self.net(x[..., :-1])
                            lo = lw[..., [0]]
                            hi = lo + lw[..., [1]].square()
                            return self.clamp(prev, lo, hi)
                    model = Band()
                hedger = pnn.Hedger(model, feats, criterion=mk_criterion(crit))
                hl = None
                if Hn >= 2:
                    d.simulate(n_paths=SInt(NP))
                    raise Unsupported('H>=2 training scenario not modelled')
                if eval_mode:
                    hedger.eval()
                if second_call:
                    hedger.compute_loss(d, n_paths=SInt(NP))
                    del rec[:]
                loss = _with_bisect_stub(lambda: hedger.compute_loss(d, n_paths=SInt(NP)))
                return loss, list(rec), [p_.pname for p_ in hedger.model.parameters()] + [getattr(p_, 'pname', '?') for p_ in hedger.criterion.parameters()] + extra_params
            paths = explore(run, hyps, max_paths=32)
        except Unsupported as e:
            return Verdict('unknown', 'engine', time.time() - t0, 'out of reach: %s' % e)
        finally:
            H._set_T(old)
        sample = {'claim': 'loss is graph-connected to every parameter with no parameter-dependent sub-term cut from the graph', 'scenario': tag}
        for p in paths:
            if p.outcome() != 'returns':
                return Verdict('unknown', 'engine', time.time() - t0, 'path %s: %s %s' % (p.outcome(), p.exception, p.traceback[-700:]), sample=sample)
            loss, inputs, pnames = p.result
            missing = [q for q in pnames if q not in loss.deps]
            if missing:
                return Verdict('refuted', 'ghost connectivity', time.time() - t0, 'loss is not graph-connected to parameter(s) %s (deps %s)' % (missing, sorted(loss.deps)),
                               witness={'missing': missing}, sample=sample, replay=_replay_grad())
            term = loss.at(())
            cut = _param_dependent_stopgrads(term, set(pnames) | set(PARAM_NAMES))
            if cut:
                return Verdict('refuted', 'ghost connectivity', time.time() - t0, 'a parameter-dependent part of the loss is cut from the graph: %s' % tm.show(cut[0])[:300],
                               witness={'cut': tm.show(cut[0])[:400]}, sample=sample, replay=_replay_grad())
            if stepwise and inputs and not module_output and not band and not param_feature and not scalar_bound:
                first = inputs[0]
                # the zero prev_hedge at step 0 must be a fresh leaf: no graph from an earlier run
                if first.deps - frozenset(pnames) or any(q in first.deps for q in pnames):
                    return Verdict('refuted', 'ghost connectivity', time.time() - t0, 'the initial prev_hedge input carries a graph %s (stale history)' % sorted(first.deps),
                                   witness={'deps': sorted(first.deps)}, sample=sample, replay=_replay_grad())
                # recurrent path: the prev_hedge slot at step 1 is connected to the parameters (same graph node as the output of step 0)
                if len(inputs) > 1 and not all(q in inputs[1].deps for q in pnames if q in ('theta', 'W0', 'b0')):
                    return Verdict('refuted', 'ghost connectivity', time.time() - t0, 'prev_hedge at step 1 is not connected to the model parameters: the recurrent path is cut',
                                   witness={'deps': sorted(inputs[1].deps)}, sample=sample, replay=_replay_grad())
            sample['deps'] = sorted(loss.deps)
            sample['loss_term_size'] = tm.size(term)
        return Verdict('proved', 'ghost connectivity (deps + stopgrad scan)', time.time() - t0, '%d path(s)' % len(paths), sample=sample)
    return Obligation('TR/compute_loss/grad-faithful[%s]' % tag, 'ghost', 'pfhedge.nn.modules.hedger.Hedger.compute_loss', check, ['C14'],
                      clause='compute_loss(enable_grad=True) [%s]: connected to every model parameter through features, recurrent input, gains, costs, payoff and criterion; nothing parameter-dependent is detached' % tag)


def no_graph_ob(which, crit='entropic_risk'):
    def check():
        t0 = time.time()
        Tc = 3
        hyps = H.DIMS + [tm.ge(NP, tm.const(4, 'I')), tm.ge(tm.var('c1'), tm.ZERO), tm.gt(tm.var('a_'), tm.ZERO), tm.gt(tm.var('M'), tm.ZERO)]
        old = H._set_T(Tc)
        try:
            def run(c):
                import pfhedge.nn as pnn
                d = mk_sim_derivative(Tc, cost=SReal(tm.var('c1')))
                hedger = pnn.Hedger(H.UserModel.make(1), ['log_moneyness', 'time_to_maturity', 'prev_hedge'], criterion=mk_criterion(crit))
                if which == 'price':
                    return hedger.price(d, n_paths=SInt(NP)), c.grad_enabled
                return hedger.compute_loss(d, n_paths=SInt(NP), enable_grad=False), c.grad_enabled
            paths = explore(run, hyps, max_paths=16)
        finally:
            H._set_T(old)
        for p in paths:
            if p.outcome() != 'returns':
                return Verdict('unknown', 'engine', time.time() - t0, 'path %s: %s %s' % (p.outcome(), p.exception, p.traceback[-600:]))
            res, mode_after = p.result
            if res.deps or res.requires_grad or not mode_after:
                return Verdict('refuted', 'ghost connectivity', time.time() - t0, '%s carries a graph (deps %s) or leaves the grad mode changed (%s)' % (which, sorted(res.deps), mode_after),
                               witness={'deps': sorted(res.deps)}, replay=_replay_grad())
        return Verdict('proved', 'ghost connectivity', time.time() - t0, '', sample={'claim': '%s carries no graph and restores the grad mode' % which})
    return Obligation('TR/%s/no-graph%s' % (which, '' if crit == 'entropic_risk' else '[criterion=%s]' % crit), 'ghost', 'pfhedge.nn.modules.hedger.Hedger.' + ('price' if which == 'price' else 'compute_loss'), check, ['C14'],
                      clause='%s carries no graph (evaluation only) and restores the previous grad mode' % ('price() by default' if which == 'price' else 'compute_loss(enable_grad=False)'))


GRAD_REPLAY = '''
import copy
import pfhedge.nn as pnn
from pfhedge.instruments import BrownianStock, EuropeanOption
torch.manual_seed(7)
bad = []
def fd_check(hedger, d, tag):
    params = [p for p in hedger.model.parameters()]
    for p in params: p.grad = None
    loss = hedger.compute_pl(d); loss = hedger.criterion(loss)
    loss.backward()
    for p in params:
        flat = p.data.view(-1)
        for i in range(min(flat.numel(), 3)):
            old = flat[i].item(); eps = 1e-6
            flat[i] = old + eps; lp = hedger.criterion(hedger.compute_pl(d)).item()
            flat[i] = old - eps; lm = hedger.criterion(hedger.compute_pl(d)).item()
            flat[i] = old
            fd = (lp - lm) / (2 * eps); g = p.grad.view(-1)[i].item()
            if abs(fd - g) > 1e-5 * max(1.0, abs(fd)): bad.append((tag, fd, g))
for feats in (["log_moneyness", "time_to_maturity"], ["log_moneyness", "time_to_maturity", "prev_hedge"]):
    for mode in ("train", "eval", "second"):
        und = BrownianStock(sigma=0.3, dt=0.01, cost=1e-3, dtype=torch.float64); d = EuropeanOption(und, maturity=0.05); d.simulate(n_paths=16)
        model = torch.nn.Sequential(torch.nn.Linear(len(feats), 4), torch.nn.Tanh(), torch.nn.Linear(4, 1)).double()
        hedger = pnn.Hedger(model, feats, criterion=pnn.EntropicRiskMeasure())
        if mode == "eval": hedger.eval()
        if mode == "second": hedger.compute_pl(d)
        fd_check(hedger, d, (tuple(feats), mode))
# recurrent input reaching the model only through a parameter-free ModuleOutput feature
from pfhedge.features import ModuleOutput
und = BrownianStock(sigma=0.3, dt=0.01, cost=1e-3, dtype=torch.float64); d = EuropeanOption(und, maturity=0.08); d.simulate(n_paths=16)
mo = ModuleOutput(torch.nn.Tanh(), inputs=["prev_hedge", "time_to_maturity"])
hedger = pnn.Hedger(torch.nn.Sequential(torch.nn.Linear(3, 4), torch.nn.Tanh(), torch.nn.Linear(4, 1)).double(), ["log_moneyness", mo], criterion=pnn.EntropicRiskMeasure())
fd_check(hedger, d, ("module-output", "train"))
# a no-transaction-band network: previous hedge clamped between parameter-dependent bounds
class Band(torch.nn.Module):
    def __init__(self):
        super().__init__()
        self.net = torch.nn.Sequential(torch.nn.Linear(2, 4), torch.nn.Tanh(), torch.nn.Linear(4, 2)).double()
        self.clamp = pnn.Clamp()
    def forward(self, x):
        prev = x[..., [-1]]; lw = self.net(x[..., :-1]); lo = lw[..., [0]]; hi = lo + lw[..., [1]].square()
        return self.clamp(prev, lo, hi)
und = BrownianStock(sigma=0.3, dt=0.01, cost=1e-3, dtype=torch.float64); d = EuropeanOption(und, maturity=0.08); d.simulate(n_paths=16)
hedger = pnn.Hedger(Band(), ["log_moneyness", "time_to_maturity", "prev_hedge"], criterion=pnn.EntropicRiskMeasure())
try:
    fd_check(hedger, d, ("band", "train"))
except Exception as e:
    bad.append(("band", "backward failed: " + type(e).__name__))
# parameters outside hedger.model.parameters() of the plain kind: a trainable encoder inside a ModuleOutput feature (with and without prev_hedge)
def fd_params(hedger, d, params, tag):
    for p in params: p.grad = None
    hedger.criterion(hedger.compute_pl(d)).backward()
    for p in params:
        flat = p.data.view(-1)
        for i in range(min(flat.numel(), 2)):
            old = flat[i].item(); eps = 1e-6
            flat[i] = old + eps; lp = hedger.criterion(hedger.compute_pl(d)).item()
            flat[i] = old - eps; lm = hedger.criterion(hedger.compute_pl(d)).item()
            flat[i] = old
            fd = (lp - lm) / (2 * eps); g = 0.0 if p.grad is None else p.grad.view(-1)[i].item()
            if abs(fd - g) > 1e-5 * max(1.0, abs(fd)): bad.append((tag, "finite differences %.6g, autograd %.6g" % (fd, g)))
for with_prev in (False, True):
    und = BrownianStock(sigma=0.3, dt=0.01, cost=1e-3, dtype=torch.float64); d = EuropeanOption(und, maturity=0.06); d.simulate(n_paths=16)
    enc = torch.nn.Sequential(torch.nn.Linear(2, 2), torch.nn.Tanh()).double()
    feats = [ModuleOutput(enc, inputs=["log_moneyness", "time_to_maturity"]), "time_to_maturity"] + (["prev_hedge"] if with_prev else [])
    hedger = pnn.Hedger(torch.nn.Linear(3 + (1 if with_prev else 0), 1).double(), feats, criterion=pnn.EntropicRiskMeasure())
    fd_params(hedger, d, list(enc.parameters()), ("trainable feature module", "prev_hedge" if with_prev else "stateless"))
# Clamp with a learnable 0-dim bound
class Limited(torch.nn.Module):
    def __init__(self):
        super().__init__()
        self.net = torch.nn.Linear(2, 1).double(); self.limit = torch.nn.Parameter(torch.tensor(0.35, dtype=torch.float64)); self.clamp = pnn.Clamp()
    def forward(self, x): return self.clamp(self.net(x) * 3.0, -self.limit, self.limit)
und = BrownianStock(sigma=0.3, dt=0.01, cost=1e-3, dtype=torch.float64); d = EuropeanOption(und, maturity=0.06); d.simulate(n_paths=32)
lim = Limited(); hedger = pnn.Hedger(lim, ["log_moneyness", "time_to_maturity"], criterion=pnn.EntropicRiskMeasure())
fd_params(hedger, d, [lim.limit], ("learnable 0-dim clamp bound",))
# a criterion with its own trainable parameter: evaluation-only loss must carry no graph
from pfhedge.nn.modules.loss import OCE
und = BrownianStock(dtype=torch.float64); d = EuropeanOption(und)
hedger = pnn.Hedger(torch.nn.Linear(2, 1).double(), ["log_moneyness", "time_to_maturity"], criterion=OCE(lambda x: 1 - (-x).exp()))
for nt in (1, 3):
    if hedger.compute_loss(d, n_paths=8, n_times=nt, enable_grad=False).requires_grad: bad.append("compute_loss(enable_grad=False) with a parametric criterion carries a graph (n_times=%d)" % nt)
und = BrownianStock(dtype=torch.float64); d = EuropeanOption(und); hedger = pnn.Hedger(torch.nn.Linear(2, 1).double(), ["log_moneyness", "time_to_maturity"])
pr = hedger.price(d, n_paths=8)
if pr.requires_grad: bad.append("price carries a graph")
if hedger.compute_loss(d, n_paths=8, enable_grad=False).requires_grad: bad.append("compute_loss(enable_grad=False) carries a graph")
result = {"got": [str(b) for b in bad][:10], "ref": []}
'''


def _replay_grad():
    r = real_exec(GRAD_REPLAY, {}, timeout=600)
    ok = r.get('ok') and r['result']['got'] == []
    return {'real': r, 'confirmed': not ok, 'note': 'replay: autograd vs central finite differences on the same paths (train mode, eval mode, second consecutive call; with and without prev_hedge); price/no-grad loss carry no graph'}


def c14_obligations(seed, tier='quick'):
    obs = []
    for crit in ('entropic_risk', 'expected_shortfall', 'quadratic_cvar', 'entropic_loss', 'isoelastic', 'oce'):
        for stepwise in (False, True):
            obs.append(grad_faithful_ob(crit, stepwise, 1))
    obs.append(grad_faithful_ob('entropic_risk', True, 1, eval_mode=True))
    obs.append(grad_faithful_ob('entropic_risk', True, 1, second_call=True))
    obs.append(grad_faithful_ob('expected_shortfall', False, 1, eval_mode=True))
    obs.append(grad_faithful_ob('entropic_risk', True, 1, module_output=True))
    obs.append(grad_faithful_ob('entropic_risk', True, 1, band=True))
    obs.append(grad_faithful_ob('expected_shortfall', True, 1, band=True))
    obs.append(grad_faithful_ob('entropic_risk', True, 1, param_feature=True))
    obs.append(grad_faithful_ob('entropic_risk', False, 1, param_feature=True))
    obs.append(grad_faithful_ob('entropic_risk', False, 1, scalar_bound=True))
    obs.append(grad_faithful_ob('expected_shortfall', True, 1, scalar_bound=True))
    obs.append(no_graph_ob('price'))
    obs.append(no_graph_ob('compute_loss(enable_grad=False)'))
    # a criterion that owns a trainable parameter (OCE's w): evaluation-only quantities must still carry no graph
    obs.append(no_graph_ob('compute_loss(enable_grad=False)', crit='oce'))
    return obs


# ------------------------------------------------------------------ C15

class RecCriterion:
    @staticmethod
    def make():
        import torch
        from pfhedge.nn.modules.loss import HedgeLoss
        from pfv.torchlib.tensor import Tensor

        class _Crit(HedgeLoss):
            def forward(self, input, target=0.0):
                c = ctx()
                k = sum(1 for e in c.events if e[0] == 'criterion')
                c.event('criterion', self.training, c.grad_enabled)
                pl = input - target
                r = Tensor.input('loss%d' % k, (), torch.float64, origin='fresh')
                r.deps = pl.deps if c.grad_enabled else frozenset()
                return r
        return _Crit()


def _simplify_events(events, hedger_id):
    out = []
    for e in events:
        k = e[0]
        if k in ('train', 'eval'):
            if e[1] == hedger_id:
                out.append((k,))
        elif k == 'simulate':
            out.append(('simulate', e[2], e[3], e[4]))
        elif k == 'criterion':
            out.append(('criterion', e[1], e[2]))
        elif k in ('zero_grad', 'step'):
            out.append((k, e[1]))
        elif k == 'backward':
            out.append(('backward',))
        elif k == 'ensemble':
            out.append(('ensemble', e[1]))
    return out


def _canon_epoch(evs):
    """canonical form of one epoch's event trace under the commutations that cannot change the result: clearing the gradients commutes
    with everything before `backward` (mode switches, simulation, the forward evaluation) and repeated clears collapse; so every
    zero_grad found before the (first) backward is moved right behind the first `train` event (or to the front) as ONE event."""
    evs = list(evs)
    ib = next((k for k, e in enumerate(evs) if e[0] == 'backward'), None)
    if ib is None:
        return evs
    zs = [e for e in evs[:ib] if e[0] == 'zero_grad']
    if not zs or len(set(zs)) != 1:
        return evs
    head = [e for e in evs[:ib] if e[0] != 'zero_grad']
    it = next((k for k, e in enumerate(head) if e[0] == 'train'), -1)
    head = head[:it + 1] + [zs[0]] + head[it + 1:]
    return head + evs[ib:]


def fit_epoch_ob(validation, n_times):
    # n_times = 'all': symbolic n_times, with ensemble_mean replaced by its contract (TR/ensemble_mean/loop[all n_times]):
    # a ghost event ('ensemble', n_times) followed by ONE arbitrary call of the function handed over
    sym_nt = n_times == 'all'
    tag = 'validation=%s,n_times=%s' % (validation, 'every n_times (ensemble_mean by contract)' if sym_nt else '%d' % n_times)
    NT = tm.var('n_times', 'I')

    def check():
        t0 = time.time()
        import torch
        import pfhedge.nn as pnn
        from pfhedge.nn.modules.hedger import Hedger
        Tc = 3
        hyps = H.DIMS + [tm.ge(NP, tm.IONE), tm.ge(NE, tm.IZERO), tm.gt(tm.var('M'), tm.ZERO), tm.ge(NT, tm.IONE)]
        holder = {}
        import pfhedge.nn.modules.hedger as hm
        real_em = hm.ensemble_mean

        def em_contract(function, n_times=1, *args, **kwargs):
            ctx().event('ensemble', lift(n_times))
            return function(*args, **kwargs)

        def inv(state, state0):
            return tm.TRUE
        cutfit, info = cutloops.cut(Hedger.fit, {0: cutloops.LoopSpec(inv, name='for _ in progress')})
        old = H._set_T(Tc)
        if sym_nt:
            hm.ensemble_mean = em_contract
        try:
            def run(c):
                d = mk_sim_derivative(Tc)
                hedger = pnn.Hedger(H.UserModel.make(1), ['log_moneyness', 'time_to_maturity', 'prev_hedge'], criterion=RecCriterion.make())
                opt = torch.optim.Adam(hedger.model.parameters())
                init = (SReal(tm.var('s0')),)
                c.notes.append({'hedger': id(hedger), 'opt': id(opt), 'init': init})
                return cutfit(hedger, d, n_epochs=SInt(NE), n_paths=SInt(NP), n_times=SInt(NT) if sym_nt else n_times, optimizer=opt, init_state=init, verbose=False, validation=validation)
            paths = explore(run, hyps, max_paths=16)
        except Unsupported as e:
            return Verdict('unknown', 'engine', time.time() - t0, 'out of reach: %s' % e)
        finally:
            H._set_T(old)
            hm.ensemble_mean = real_em
        sample = {'claim': 'one arbitrary epoch appends exactly the documented event sequence; the loop runs range(n_epochs)', 'scenario': tag, 'rewritten': info['rewritten'][:1500]}
        seen_iter = seen_exit = False
        for p in paths:
            evs = None
            if p.aborted is not None and p.aborted.kind == 'loop-cut':
                seen_iter = True
                # re-run bookkeeping: events of this path are in p.events after the mark recorded for this path
                ids = p.ctx.notes[0]
                evs = _simplify_events(p.events, ids['hedger'])
                opt_id = ids['opt']
                init = ids['init']
                if sym_nt:
                    # one training evaluation (n_times = 1), then - by the contract of ensemble_mean - n_times validation evaluations, each like the one seen
                    E = [('train',), ('zero_grad', opt_id), ('ensemble', tm.IONE), ('simulate', NP, init, True), ('criterion', True, True), ('backward',), ('step', opt_id)]
                    if validation:
                        E += [('eval',), ('ensemble', NT), ('simulate', NP, init, False), ('criterion', False, False)]
                    evs = [(e[0], tm.as_term(e[1])) if e[0] == 'ensemble' else e for e in evs]
                else:
                    E = [('train',), ('zero_grad', opt_id), ('simulate', NP, init, True), ('criterion', True, True), ('backward',), ('step', opt_id)]
                    if validation:
                        E += [('eval',)] + [('simulate', NP, init, False), ('criterion', False, False)] * n_times
                # drop events before the loop (none expected: optimizer instance passed in)
                got = _canon_epoch([e for e in evs])
                sample['events'] = [str(e) for e in got][:14]
                if got != E:
                    return Verdict('refuted', 'ghost event trace', time.time() - t0, 'one epoch performs %s; documented protocol: %s' % ([e[0] for e in got], [e[0] for e in E]),
                                   witness={'events': [str(e) for e in got], 'expected': [str(e) for e in E]}, sample=sample, replay=_replay_fit())
                continue
            if p.outcome() == 'returns':
                seen_exit = True
                res = p.result
                if validation and not isinstance(res, list):
                    return Verdict('refuted', 'structural', time.time() - t0, 'fit(validation=True) returns %r' % (res,), witness={}, sample=sample, replay=_replay_fit())
                if not validation and res is not None:
                    return Verdict('refuted', 'structural', time.time() - t0, 'fit(validation=False) returns %r' % (res,), witness={}, sample=sample, replay=_replay_fit())
                continue
            return Verdict('unknown', 'engine', time.time() - t0, 'path %s: %s %s' % (p.outcome(), p.exception, p.traceback[-700:]), sample=sample)
        if not (seen_iter and seen_exit):
            return Verdict('unknown', 'engine', time.time() - t0, 'expected an iteration path and an exit path: %s' % [p.outcome() for p in paths], sample=sample)
        return Verdict('proved', 'ghost event trace + loop cut', time.time() - t0, '%d paths' % len(paths), sample=sample)
    return Obligation('TR/fit/epoch[%s]' % tag, 'inv-preserve+ghost', 'pfhedge.nn.modules.hedger.Hedger.fit', check, ['C15'],
                      clause='each epoch: train mode, zero_grad, ONE freshly simulated batch of the requested size and initial state with gradients, backward, ONE optimiser step%s; returns %s [%s]' % (
                          '; then eval mode and n_times no-grad evaluations' if validation else '', 'the list of validation losses' if validation else 'None', tag))


def fit_history_ob():
    """history: one float per epoch = the validation loss of that epoch (concrete k = 0, 1, 3)."""
    def check():
        t0 = time.time()
        import torch
        import pfhedge.nn as pnn
        Tc = 3
        old = H._set_T(Tc)
        try:
            for k in (0, 1, 3):
                for n_times in (1, 2):
                    def run(c):
                        d = mk_sim_derivative(Tc)
                        hedger = pnn.Hedger(H.UserModel.make(1), ['log_moneyness', 'time_to_maturity'], criterion=RecCriterion.make())
                        opt = torch.optim.Adam(hedger.model.parameters())
                        hist = hedger.fit(d, n_epochs=k, n_paths=SInt(NP), n_times=n_times, optimizer=opt, verbose=False)
                        return hist, _simplify_events(c.events, id(hedger)), hedger.training
                    paths = explore(run, H.DIMS + [tm.ge(NP, tm.IONE), tm.gt(tm.var('M'), tm.ZERO)], max_paths=8)
                    if len(paths) != 1 or paths[0].outcome() != 'returns':
                        return Verdict('unknown', 'engine', time.time() - t0, str([(p.outcome(), str(p.exception)[:200], p.traceback[-500:]) for p in paths]))
                    hist, evs, training = paths[0].result
                    steps = sum(1 for e in evs if e[0] == 'step')
                    sims = sum(1 for e in evs if e[0] == 'simulate')
                    if steps != k or len(hist) != k or sims != k * (1 + n_times):
                        return Verdict('refuted', 'ghost event trace', time.time() - t0, 'k=%d, n_times=%d: %d optimiser steps, %d history entries, %d simulations' % (k, n_times, steps, len(hist), sims),
                                       witness={'k': k, 'n_times': n_times, 'steps': steps}, replay=_replay_fit())
                    # each history entry is the mean of that epoch's n_times validation losses: loss ids are 'loss<j>'
                    for e_ in range(k):
                        base = e_ * (1 + n_times) + 1
                        want = tm.div(tm.add(*[tm.var('loss%d' % (base + j)) for j in range(n_times)]), tm.const(n_times, 'R')) if n_times > 1 else tm.var('loss%d' % base)
                        got = lift(hist[e_])
                        r = smt.prove([], tm.eq(got, want), timeout_ms=5000)
                        if r.status != 'unsat':
                            return Verdict('refuted', 'z3', time.time() - t0, 'history[%d] = %s, expected the mean of the epoch\'s %d validation losses' % (e_, tm.show(got)[:200], n_times),
                                           witness={'epoch': e_}, replay=_replay_fit())
        finally:
            H._set_T(old)
        return Verdict('proved', 'ghost event trace (k in {0,1,3}, n_times in {1,2})', time.time() - t0, '', sample={'claim': 'k steps, k history entries, history[e] = mean of n_times no-grad evaluations'})
    return Obligation('TR/fit/history', 'post', 'pfhedge.nn.modules.hedger.Hedger.fit', check, ['C15'],
                      clause='fit for k epochs performs exactly k optimiser steps and returns k validation losses, each the mean of n_times independent evaluations (k in {0,1,3})')


def configure_optimizer_ob():
    def check():
        t0 = time.time()
        import torch
        import pfhedge.nn as pnn
        Tc = 3
        old = H._set_T(Tc)
        try:
            def run(c):
                d = mk_sim_derivative(Tc)
                crit = mk_criterion('oce')          # a criterion WITH its own parameter
                hedger = pnn.Hedger(H.UserModel.make(1), ['log_moneyness', 'time_to_maturity'], criterion=crit)
                inst = torch.optim.Adam(hedger.model.parameters())
                same = hedger._configure_optimizer(d, inst) is inst
                made = hedger._configure_optimizer(d, torch.optim.Adam)
                names = sorted(getattr(p_, 'pname', '?') for p_ in made.param_groups[0]['params'])
                try:
                    hedger._configure_optimizer(d, 'adam')
                    te = False
                except TypeError:
                    te = True
                # lazy model: parameters are materialised by a placeholder simulate + compute_pl BEFORE the optimiser is built
                lazy = pnn.Hedger(torch.nn.LazyLinear(1), ['log_moneyness', 'time_to_maturity'])
                mark = len(c.events)
                made2 = lazy._configure_optimizer(d, torch.optim.Adam)
                evs = [e for e in c.events[mark:] if e[0] in ('simulate', 'optimizer.init')]
                lazy_names = sorted(getattr(p_, 'pname', '?') for p_ in made2.param_groups[0]['params'])
                return same, names, te, [(e[0], e[2] if e[0] == 'simulate' else e[2]) for e in evs], lazy_names, isinstance(made, torch.optim.Optimizer)
            paths = explore(run, H.DIMS + [tm.gt(tm.var('M'), tm.ZERO)], max_paths=8)
        finally:
            H._set_T(old)
        if len(paths) != 1 or paths[0].outcome() != 'returns':
            return Verdict('unknown', 'engine', time.time() - t0, str([(p.outcome(), str(p.exception)[:200], p.traceback[-500:]) for p in paths]))
        same, names, te, evs, lazy_names, isopt = paths[0].result
        ok = same and names == ['theta'] and te and isopt and len(evs) == 2 and evs[0][0] == 'simulate' and evs[0][1] is tm.const(1, 'I') and evs[1][0] == 'optimizer.init' and lazy_names == ['W0', 'b0']
        if ok:
            return Verdict('proved', 'structural + ghost events', time.time() - t0, '', sample={'claim': '_configure_optimizer', 'params': names, 'lazy': lazy_names, 'events': [str(e) for e in evs]})
        return Verdict('refuted', 'structural + ghost events', time.time() - t0, 'instance unchanged=%s, built on params %s, TypeError=%s, lazy order %s, lazy params %s' % (same, names, te, evs, lazy_names),
                       witness={'params': names}, replay=_replay_fit())
    return Obligation('TR/_configure_optimizer/post', 'post', 'pfhedge.nn.modules.hedger.Hedger._configure_optimizer', check, ['C15'],
                      clause='an Optimizer instance is used unchanged; an Optimizer class is instantiated on the MODEL\'s parameters only (after materialising lazy parameters with a 1-path placeholder run); anything else raises TypeError')


def compute_loss_protocol_ob():
    def check():
        t0 = time.time()
        import pfhedge.nn as pnn
        Tc = 3
        old = H._set_T(Tc)
        try:
            for n_times in (1, 3):
                for eg in (True, False):
                    def run(c):
                        d = mk_sim_derivative(Tc)
                        hedger = pnn.Hedger(H.UserModel.make(1), ['log_moneyness', 'time_to_maturity'], criterion=RecCriterion.make())
                        init = (SReal(tm.var('s0')),)
                        r = hedger.compute_loss(d, n_paths=SInt(NP), n_times=n_times, init_state=init, enable_grad=eg)
                        return r, _simplify_events(c.events, id(hedger)), init, c.grad_enabled
                    paths = explore(run, H.DIMS + [tm.ge(NP, tm.IONE), tm.gt(tm.var('M'), tm.ZERO)], max_paths=8)
                    if len(paths) != 1 or paths[0].outcome() != 'returns':
                        return Verdict('unknown', 'engine', time.time() - t0, str([(p.outcome(), str(p.exception)[:200], p.traceback[-500:]) for p in paths]))
                    r, evs, init, after = paths[0].result
                    E = [('simulate', NP, init, eg), ('criterion', True, eg)] * n_times
                    want = tm.div(tm.add(*[tm.var('loss%d' % j) for j in range(n_times)]), tm.const(n_times, 'R')) if n_times > 1 else tm.var('loss0')
                    if evs != E or not after or smt.prove([], tm.eq(r.at(()), want), timeout_ms=5000).status != 'unsat':
                        return Verdict('refuted', 'ghost event trace', time.time() - t0, 'compute_loss(n_times=%d, enable_grad=%s): events %s, value %s' % (n_times, eg, [e[0] for e in evs], tm.show(r.at(()))[:200]),
                                       witness={'n_times': n_times, 'enable_grad': eg}, replay=_replay_fit())
        finally:
            H._set_T(old)
        return Verdict('proved', 'ghost event trace', time.time() - t0, '', sample={'claim': 'compute_loss = mean over n_times of criterion(portfolio, payoff) on fresh simulations of the requested size/initial state under the requested grad mode'})
    return Obligation('TR/compute_loss/protocol', 'post', 'pfhedge.nn.modules.hedger.Hedger.compute_loss', check, ['C15'],
                      clause='compute_loss simulates n_times fresh batches (n_paths, init_state) under grad mode enable_grad, evaluates the criterion on each and returns their mean; the grad mode is restored')


FIT_REPLAY = '''
import copy
import pfhedge.nn as pnn
from pfhedge.instruments import BrownianStock, EuropeanOption
bad = []
class Crit(pnn.EntropicRiskMeasure):
    def __init__(self): super().__init__(); self.calls = []
    def forward(self, input, target=0.0):
        self.calls.append((self.training, torch.is_grad_enabled(), input.shape[0])); return super().forward(input, target)
class CountSGD(torch.optim.SGD):
    steps = 0; zeros = 0
    def step(self, *a, **k): CountSGD.steps += 1; return super().step(*a, **k)
    def zero_grad(self, *a, **k): CountSGD.zeros += 1; return super().zero_grad(*a, **k)
for k in (0, 1, 3):
    for validation in (True, False):
        for pre_grad in (False, True, "eval"):
            CountSGD.steps = 0
            torch.manual_seed(11)
            d = EuropeanOption(BrownianStock(dt=0.01), maturity=0.04)
            model = torch.nn.Linear(2, 1)
            ref_model = copy.deepcopy(model)
            crit = Crit()
            hedger = pnn.Hedger(model, ["log_moneyness", "time_to_maturity"], criterion=crit)
            if pre_grad == "eval":
                hedger.eval()                                      # the hedger was last used for evaluation
            elif pre_grad:
                hedger.compute_loss(d, n_paths=5).backward()       # a stale gradient from earlier use
                crit.calls.clear()
            opt = CountSGD(model.parameters(), lr=0.1)
            torch.manual_seed(12)
            hist = hedger.fit(d, n_epochs=k, n_paths=7, n_times=2, optimizer=opt, verbose=False, validation=validation)
            if CountSGD.steps != k: bad.append((k, validation, "steps", CountSGD.steps))
            if validation and (hist is None or len(hist) != k): bad.append((k, validation, "history", hist))
            if not validation and hist is not None: bad.append((k, validation, "history not None"))
            want_calls = ([(True, True, 7)] + ([(False, False, 7)] * 2 if validation else [])) * k
            if crit.calls != want_calls: bad.append((k, validation, pre_grad, "modes", crit.calls[:6]))
            # explicit reference loop under the same seed
            ref = pnn.Hedger(ref_model, ["log_moneyness", "time_to_maturity"], criterion=pnn.EntropicRiskMeasure())
            ropt = torch.optim.SGD(ref_model.parameters(), lr=0.1)
            torch.manual_seed(12)
            for _ in range(k):
                ref.train(); ropt.zero_grad(); ref.compute_loss(d, n_paths=7).backward(); ropt.step()
                if validation:
                    ref.eval(); ref.compute_loss(d, n_paths=7, n_times=2, enable_grad=False)
            for a, b in zip(model.parameters(), ref_model.parameters()):
                if not torch.allclose(a, b, atol=1e-7): bad.append((k, validation, pre_grad, "parameters differ from the explicit loop"))
# the model was put in eval mode before being wrapped (hedger.training is True, model.training False): training batches still run in training mode
class ModeNet(torch.nn.Module):
    def __init__(self): super().__init__(); self.lin = torch.nn.Linear(2, 1); self.seen = []
    def forward(self, x): self.seen.append(self.training); return self.lin(x)
torch.manual_seed(41)
d = EuropeanOption(BrownianStock(dt=0.01), maturity=0.04)
net = ModeNet(); net.eval()
hedger = pnn.Hedger(net, ["log_moneyness", "time_to_maturity"])
hedger.fit(d, n_epochs=2, n_paths=5, optimizer=torch.optim.SGD, verbose=False, validation=False)
if not all(net.seen[-2:]) or not any(net.seen): bad.append(("model put in eval mode before fit", "training batches processed with model.training = %s" % net.seen[-4:]))
# a larger number of validation evaluations per epoch
torch.manual_seed(31)
d = EuropeanOption(BrownianStock(dt=0.01), maturity=0.04)
crit = Crit()
hedger = pnn.Hedger(torch.nn.Linear(2, 1), ["log_moneyness", "time_to_maturity"], criterion=crit)
hist = hedger.fit(d, n_epochs=2, n_paths=5, n_times=9, optimizer=torch.optim.SGD, verbose=False)
if crit.calls != ([(True, True, 5)] + [(False, False, 5)] * 9) * 2: bad.append(("n_times=9", "evaluations per epoch", [sum(1 for c_ in crit.calls if not c_[0]), len(crit.calls)]))
# parameters that the supplied optimiser owns but that live outside hedger.model: a parametric criterion (OCE) and the module of a ModuleOutput feature
from pfhedge.features import ModuleOutput
for validation in (False, True):
    torch.manual_seed(21)
    d = EuropeanOption(BrownianStock(dt=0.01), maturity=0.04)
    from pfhedge.nn.modules.loss import OCE
    mods = [torch.nn.Linear(2, 1), torch.nn.Linear(1, 1), OCE(lambda x: 1 - torch.exp(-x))]
    refs = copy.deepcopy(mods)
    def build(ms):
        h = pnn.Hedger(ms[0], [ModuleOutput(ms[1], inputs=["log_moneyness"]), "time_to_maturity"], criterion=ms[2])
        return h, torch.optim.SGD([q for m_ in ms for q in m_.parameters()], lr=0.1)
    hedger, opt = build(mods)
    torch.manual_seed(22)
    hedger.fit(d, n_epochs=3, n_paths=7, optimizer=opt, verbose=False, validation=validation)
    ref, ropt = build(refs)
    torch.manual_seed(22)
    for _ in range(3):
        ref.train(); ropt.zero_grad(); ref.compute_loss(d, n_paths=7).backward(); ropt.step()
        if validation:
            ref.eval(); ref.compute_loss(d, n_paths=7, enable_grad=False)
    for nm, m_, r_ in zip(("model", "feature module", "criterion"), mods, refs):
        for a, b in zip(m_.parameters(), r_.parameters()):
            if not torch.allclose(a, b, atol=1e-7): bad.append(("optimiser owns parameters outside the model", validation, nm + " parameters differ from the explicit loop (gradients accumulated across epochs?)"))
result = {"got": [str(b) for b in bad][:10], "ref": []}
'''


def _replay_fit():
    r = real_exec(FIT_REPLAY, {}, timeout=600)
    ok = r.get('ok') and r['result']['got'] == []
    return {'real': r, 'confirmed': not ok, 'note': 'replay: real fit (k in {0,1,3}, validation on/off, with/without a stale gradient, hedger left in eval mode, optimiser owning parameters outside the model) against an explicit simulate/loss/backward/step loop under the same seed; step counts, modes, history'}


def ensemble_mean_ob():
    def check():
        t0 = time.time()
        import torch
        from pfhedge._utils.operations import ensemble_mean
        from pfv.torchlib.tensor import Tensor
        for n in (1, 2, 4):
            calls = []

            def run(c):
                del calls[:]

                def f():
                    calls.append(1)
                    return Tensor.input('v%d' % len(calls), (), torch.float64)
                return ensemble_mean(f, n_times=n)
            p = explore(run, [], max_paths=2)[0]
            want = tm.div(tm.add(*[tm.var('v%d' % (j + 1)) for j in range(n)]), tm.const(n, 'R')) if n > 1 else tm.var('v1')
            if p.outcome() != 'returns' or len(calls) != n or smt.prove([], tm.eq(p.result.at(()), want), timeout_ms=5000).status != 'unsat':
                return Verdict('refuted', 'z3 + call count', time.time() - t0, 'ensemble_mean(n_times=%d): %d calls, value %s' % (n, len(calls), tm.show(p.result.at(()))[:200] if p.result is not None else p.exception),
                               witness={'n_times': n, 'calls': len(calls)}, replay={'confirmed': False})
        return Verdict('proved', 'z3 + call count', time.time() - t0, '', sample={'claim': 'ensemble_mean calls the function exactly n_times times and returns the mean (n_times in {1,2,4})'})
    return Obligation('TR/ensemble_mean/post', 'post', 'pfhedge._utils.operations.ensemble_mean', check, ['C15'],
                      clause='ensemble_mean(f, n) calls f exactly n times and returns the mean of the results')


def ensemble_mean_loop_ob(props=('C15',)):
    """ensemble_mean for EVERY n_times: the comprehension `[function(*args, **kwargs) for _ in range(n_times)]` is desugared
    mechanically into `pfv_lc1 = []; for _ in range(n_times): pfv_lc1.append(function(*args, **kwargs))` and the loop is cut.
    function is opaque: its k-th call returns the row F[k, :] of an uninterpreted array (ghost call counter).
    Invariant: len(list) == calls made == iterations done, and the list is [F[0], ..., F[i-1]] (the havocked list is
    represented by exactly these rows, so the element clause is a proof obligation at init/preserve only)."""
    def check():
        t0 = time.time()
        import torch
        import pfhedge._utils.operations as opm
        from pfv import cutloops
        from pfv.torchlib.tensor import Tensor
        NT, M_ = tm.var('n_times', 'I'), tm.var('M', 'I')
        cell = {'k': 0, 'calls': [], 'argbad': [], 'ncalls_total': 0}
        a1, k1 = object(), object()

        def f(*a, **kw):
            k = cell['k']
            cell['calls'].append((a, kw))
            if not (a == (a1,) and set(kw) == {'key'} and kw['key'] is k1):
                cell['argbad'].append((len(a), sorted(kw)))          # kept across paths (the call inside the arbitrary iteration is on an aborted path)
            cell['k'] = k + 1
            kt = tm.as_term(lift(k))
            return Tensor.fresh(lambda idx: tm.sel('F', kt, *idx), (SInt(M_),), torch.float64)

        def havoc_list(old, c):
            L = SInt(c.fresh('hvL', 'I'))
            return cutloops.SymStack(Tensor.fresh(lambda idx: tm.sel('F', idx[0], idx[1]), (L, SInt(M_)), torch.float64), L)

        LOOPVAR = ['_']

        def heap_havoc(state):
            cell['k'] = state[LOOPVAR[0]]     # ghost call counter at the head of an arbitrary iteration (tied to the loop counter by the invariant)

        grown = [nm for (k_, nm) in cutloops.appended_names(opm.ensemble_mean) if k_ == 0]
        if len(grown) != 1:
            return Verdict('unknown', 'engine', time.time() - t0, 'the repeated evaluation is not a comprehension / loop growing one list: %s' % grown)
        LST = grown[0]

        def inv(state, state0):
            loopvar = [v_ for k_, v_ in state.items() if k_ == LOOPVAR[0]][0]
            lst, i = state[LST], lift(loopvar)
            rows = [('len(list) == iterations done', tm.eq(cutloops.list_len(lst), i)),
                    ('ghost: calls made == iterations done', tm.eq(tm.as_term(lift(cell['k'])), i))]
            if isinstance(lst, cutloops.SymStack):
                k, j = tm.fresh('ik', 'I'), tm.fresh('ij', 'I')
                rows.append(('element k of the list is the result of call k', tm.forall(k, tm.IZERO, i, tm.forall(j, tm.IZERO, M_, tm.eq(lst.elem(k, (j,)), tm.sel('F', k, j))))))
            return rows
        try:
            LOOPVAR[0] = cutloops.loop_var(opm.ensemble_mean, 0)
            cut, info = cutloops.cut(opm.ensemble_mean, {0: cutloops.LoopSpec(inv, name='for (repeated evaluation)', havoc={LST: havoc_list}, heap_havoc=heap_havoc)})
        except Exception as e:
            return Verdict('unknown', 'engine', time.time() - t0, 'loop cut not applicable: %s' % str(e)[:300])
        hyps = [tm.ge(NT, tm.IONE), tm.ge(M_, tm.IONE)]

        def run(c):
            cell['k'] = 0
            del cell['calls'][:]
            r = cut(f, SInt(NT), a1, key=k1)
            return r, list(cell['calls']), cell['k']
        try:
            paths = explore(run, hyps, max_paths=16)
        except Unsupported as e:
            return Verdict('unknown', 'engine', time.time() - t0, 'out of reach: %s' % e)
        rows = []
        seen = set()
        sample = {'claim': 'ensemble_mean(f, n, *args, **kwargs) == (1/n) sum_k f_k(*args, **kwargs), f called exactly n times, for every n >= 1', 'rewritten': info['rewritten'][-900:]}
        j = tm.var('j', 'I')
        for p in paths:
            for so in p.side:
                r = smt.prove(so['hyps'], so['goal'], timeout_ms=30000)
                rows.append(('%s: %s' % (so['kind'], so['name']), {'unsat': 'proved', 'sat': 'refuted' if so['kind'] in ('inv-init', 'inv-preserve') else 'unknown'}.get(r.status, 'unknown'), tm.show(so['goal'])[:200] if r.status != 'unsat' else ''))
            if p.aborted is not None and p.aborted.kind == 'loop-cut':
                seen.add('iteration')
                continue
            if p.outcome() != 'returns':
                return Verdict('unknown', 'engine', time.time() - t0, str((p.outcome(), str(p.exception)[:200], p.traceback[-400:])), sample=sample)
            res, calls, kfin = p.result
            facts = p.facts(hyps) + [tm.le(tm.IZERO, j), tm.lt(j, M_)]
            single = smt.prove(p.facts(hyps), tm.eq(NT, tm.IONE), timeout_ms=5000).status == 'unsat'
            if single:
                seen.add('n=1')
                ok = len(calls) == 1 and fc.prove_eq(facts, res.at((j,)), tm.sel('F', tm.IZERO, j), timeout_ms=10000).status == 'unsat'
                rows.append(('n_times == 1: one call, its value returned', 'proved' if ok else 'refuted', '%d call(s), value %s' % (len(calls), tm.show(res.at((j,)))[:120])))
            else:
                seen.add('exit')
                k = tm.fresh('k', 'I')
                want = tm.div(tm.tsum(k, tm.IZERO, NT, tm.sel('F', k, j)), tm.toreal(NT))
                r1 = smt.prove(p.facts(hyps), tm.eq(tm.as_term(lift(kfin)), NT), timeout_ms=10000)
                rows.append(('exit: the function has been called exactly n_times times', {'unsat': 'proved', 'sat': 'refuted'}.get(r1.status, 'unknown'), ''))
                r2 = fc.prove_eq(facts, res.at((j,)), want, timeout_ms=30000)
                rows.append(('exit: result == (1/n_times) sum_k F[k]', {'unsat': 'proved', 'sat': 'refuted'}.get(r2.status, 'unknown'), tm.show(res.at((j,)))[:200] if r2.status != 'unsat' else ''))
        if seen != {'iteration', 'n=1', 'exit'}:
            return Verdict('unknown', 'engine', time.time() - t0, 'paths seen: %s' % sorted(seen), sample=sample)
        rows.append(('every call (n_times = 1 and inside the arbitrary iteration) passes on *args and **kwargs unchanged', 'refuted' if cell['argbad'] else 'proved', str(cell['argbad'][:2]) if cell['argbad'] else ''))
        bad = [r for r in rows if r[1] == 'refuted']
        unk = [r for r in rows if r[1] == 'unknown']
        sample['vcs'] = [{'vc': r[0], 'status': r[1]} for r in rows]
        if bad:
            return Verdict('refuted', 'z3 (loop invariant) + ghost call counter', time.time() - t0, '; '.join('%s %s' % (r[0], r[2]) for r in bad)[:600], witness={'failed': [r[0] for r in bad]}, sample=sample, replay=_replay_ensemble())
        if unk:
            return Verdict('unknown', 'z3', time.time() - t0, '; '.join('%s %s' % (r[0], r[2]) for r in unk)[:600], sample=sample)
        return Verdict('proved', 'z3 (loop invariant) + ghost call counter', time.time() - t0, '%d VCs' % len(rows), sample=sample)
    return Obligation('TR/ensemble_mean/loop[all n_times]', 'inv-init/inv-preserve/post', 'pfhedge._utils.operations.ensemble_mean', check, list(props),
                      clause='for EVERY n_times >= 1: ensemble_mean(f, n_times, *args, **kwargs) calls f(*args, **kwargs) exactly n_times times and returns the mean of the results (the value itself for n_times = 1)')


def n_times_wiring_ob(which):
    """modular step from `ensemble_mean` (contract TR/ensemble_mean/loop, every n) to a caller: compute_loss / price hand
    ensemble_mean the caller's n_times unchanged and a function whose every call is one fresh simulate + one evaluation."""
    prop = 'C15' if which == 'compute_loss' else 'C06'

    def check():
        t0 = time.time()
        import torch
        import pfhedge.nn as pnn
        import pfhedge.nn.modules.hedger as hm
        from pfhedge.nn.modules.loss import HedgeLoss
        from pfv.torchlib.tensor import Tensor
        NT = tm.var('n_times', 'I')
        Tc = 3
        old = H._set_T(Tc)
        real_em = hm.ensemble_mean
        seen = {}

        def cells(fn):
            out = []
            for cl in (getattr(fn, '__closure__', None) or ()):
                try:
                    v = cl.cell_contents
                except ValueError:
                    continue
                out.append((id(v), len(v) if isinstance(v, (list, dict, set)) else None))
            return out

        def stub(function, n_times=1, *args, **kwargs):
            c = ctx()
            seen['n_times'] = n_times
            seen['extra'] = (args, kwargs)
            marks = [len(c.events)]
            before = cells(function)
            out = None
            for _k in range(2):              # two calls of the function handed over: each must be one fresh simulate + one evaluation
                out = function(*args, **kwargs)
                marks.append(len(c.events))
            seen['marks'] = marks
            seen['stateless'] = cells(function) == before      # the function keeps no call-count state in its closure (lists / re-bound cells)
            return out

        class CashCrit(HedgeLoss):
            def forward(self, input, target=0.0):
                raise AssertionError('price must use cash()')

            def cash(self, input, target=0.0):
                c = ctx()
                c.event('criterion', 'cash', c.grad_enabled)
                return Tensor.input('cash%d' % len(c.events), (), torch.float64, origin='fresh')
        rows = []
        hm.ensemble_mean = stub
        try:
            for eg in ((True, False) if which == 'compute_loss' else (False,)):
                def run(c):
                    seen.clear()
                    d = mk_sim_derivative(Tc)
                    crit = RecCriterion.make() if which == 'compute_loss' else CashCrit()
                    hedger = pnn.Hedger(H.UserModel.make(1), ['log_moneyness', 'time_to_maturity'], criterion=crit)
                    init = (SReal(tm.var('s0')),)
                    if which == 'compute_loss':
                        hedger.compute_loss(d, n_paths=SInt(NP), n_times=SInt(NT), init_state=init, enable_grad=eg)
                    else:
                        hedger.price(d, n_paths=SInt(NP), n_times=SInt(NT), init_state=init)
                    return dict(seen), [e for e in c.events], init, id(hedger)
                hy = H.DIMS + [tm.ge(NP, tm.IONE), tm.ge(NT, tm.IONE), tm.gt(tm.var('M'), tm.ZERO)]
                paths = explore(run, hy, max_paths=8)
                if not paths or any(p.outcome() != 'returns' for p in paths):
                    return Verdict('unknown', 'engine', time.time() - t0, str([(p.outcome(), str(p.exception)[:200], p.traceback[-500:]) for p in paths]))
                tag = '%s(enable_grad=%s)' % (which, eg) if which == 'compute_loss' else which
                for p in paths:
                    sn, evs, init, hid = p.result
                    if 'n_times' not in sn:
                        rows.append((tag + ': the repeated evaluation goes through ensemble_mean', 'unknown', 'ensemble_mean was not called'))
                        continue
                    r = smt.prove(p.facts(hy), tm.eq(tm.as_term(lift(sn['n_times'])), NT), timeout_ms=10000)
                    rows.append((tag + ': ensemble_mean receives the caller\'s n_times', {'unsat': 'proved', 'sat': 'refuted'}.get(r.status, 'unknown'), 'passes %s' % tm.show(tm.as_term(lift(sn['n_times'])))[:100] if r.status != 'unsat' else ''))
                    rows.append((tag + ': no further arguments', 'proved' if sn['extra'] == ((), {}) else 'refuted', ''))
                    m = sn['marks']
                    per_call = [_simplify_events(evs[m[k_]:m[k_ + 1]], hid) for k_ in range(2)]
                    want = [('simulate', NP, init, eg), ('criterion', True if which == 'compute_loss' else 'cash', eg)]
                    ok = all(pc == want for pc in per_call)
                    rows.append((tag + ': every call of the function is one fresh simulate(n_paths, init_state) + one evaluation under the requested grad mode', 'proved' if ok else 'refuted', str(per_call)[:300] if not ok else ''))
                    rows.append((tag + ': the function keeps no state between calls (closure unchanged), so the two calls seen stand for every call', 'proved' if sn['stateless'] else 'unknown', '' if sn['stateless'] else 'the closure of the function changed between calls'))
        finally:
            hm.ensemble_mean = real_em
            H._set_T(old)
        bad = [r for r in rows if r[1] == 'refuted']
        unk = [r for r in rows if r[1] == 'unknown']
        sample = {'claim': '%s passes n_times through to ensemble_mean (symbolic n_times)' % which, 'vcs': [{'vc': r[0], 'status': r[1]} for r in rows]}
        if bad:
            return Verdict('refuted', 'ghost event trace + z3', time.time() - t0, '; '.join('%s %s' % (r[0], r[2]) for r in bad)[:600], witness={'failed': [r[0] for r in bad]}, sample=sample, replay=_replay_ntimes())
        if unk:
            return Verdict('unknown', 'ghost event trace + z3', time.time() - t0, '; '.join('%s %s' % (r[0], r[2]) for r in unk)[:600], sample=sample)
        return Verdict('proved', 'ghost event trace + z3', time.time() - t0, '%d VCs' % len(rows), sample=sample)
    return Obligation('TR/%s/pre@callsite[ensemble_mean,every n_times]' % which, 'pre@callsite', 'pfhedge.nn.modules.hedger.Hedger.%s' % which, check, [prop],
                      clause='%s calls ensemble_mean(function, n_times = the caller\'s n_times) where each call of function is one fresh simulate(n_paths, init_state) and one evaluation without state between calls; with the contract of ensemble_mean this gives the protocol for every n_times' % which)


NTIMES_REPLAY = '''
import pfhedge.nn as pnn
from pfhedge.instruments import BrownianStock, EuropeanOption
bad = []
class Crit(pnn.EntropicRiskMeasure):
    calls = 0; inside = False
    def forward(self, input, target=0.0):
        if not Crit.inside: Crit.calls += 1
        return super().forward(input, target)
    def cash(self, input, target=0.0):
        Crit.calls += 1; Crit.inside = True
        try: return super().cash(input, target)
        finally: Crit.inside = False
class Stock(BrownianStock):
    sims = 0
    def simulate(self, *a, **k): Stock.sims += 1; return super().simulate(*a, **k)
for n in (1, 2, 5, 6, 7, 11, 12, 20):
    d = EuropeanOption(Stock(dt=0.01), maturity=0.03)
    hedger = pnn.Hedger(pnn.Naked(), ["log_moneyness"], criterion=Crit())
    for which in ("compute_loss", "price"):
        Crit.calls = 0; Stock.sims = 0
        getattr(hedger, which)(d, n_paths=3, n_times=n)
        if Crit.calls != n or Stock.sims != n: bad.append((which, "n_times=%d" % n, "%d evaluation(s), %d simulation(s)" % (Crit.calls, Stock.sims)))
result = {"got": [str(b) for b in bad][:8], "ref": []}
'''


def _replay_ntimes():
    r = real_exec(NTIMES_REPLAY, {}, timeout=300)
    ok = r.get('ok') and r['result']['got'] == []
    return {'real': r, 'confirmed': not ok, 'note': 'replay: real compute_loss / price with n_times in {1,2,5,6,7,11,12,20}: number of simulations and criterion evaluations'}


ENSEMBLE_REPLAY = '''
from pfhedge._utils.operations import ensemble_mean
bad = []
for n in (1, 2, 3, 4, 5, 7, 8, 9, 16, 17, 33, 64, 65, 130):
    calls = []
    def f(a, key=None):
        calls.append((a, key)); return T([float(len(calls)), 2.0 * len(calls)])
    out = ensemble_mean(f, n, "a", key="k")
    want = T([(n + 1) / 2.0, float(n + 1)])
    if len(calls) != n or any(c_ != ("a", "k") for c_ in calls): bad.append((n, "calls", len(calls)))
    if tuple(out.shape) != (2,) or not torch.allclose(out, want, atol=1e-12): bad.append((n, "value", out.tolist(), want.tolist()))
result = {"got": [str(b) for b in bad][:8], "ref": []}
'''


def _replay_ensemble():
    r = real_exec(ENSEMBLE_REPLAY, {}, timeout=120)
    ok = r.get('ok') and r['result']['got'] == []
    return {'real': r, 'confirmed': not ok, 'note': 'replay: real ensemble_mean for n_times in {1,...,5,7,8,9,16,17,33,64,65,130}: call count, arguments, value'}


def c15_obligations(seed, tier='quick'):
    obs = [fit_epoch_ob(True, 1), fit_epoch_ob(True, 3), fit_epoch_ob(False, 1), fit_epoch_ob(True, 'all'), fit_history_ob(), configure_optimizer_ob(), compute_loss_protocol_ob(), ensemble_mean_ob(), ensemble_mean_loop_ob(), n_times_wiring_ob('compute_loss')]
    return obs
