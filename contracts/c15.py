"""C15 - fit() performs exactly the documented training protocol (ghost event trace + loop cut)."""
from contracts import training

PROP = 'C15'


def build(tier, seed):
    from pfv.torchlib import import_pfhedge
    import_pfhedge()
    obs = training.c15_obligations(seed, tier)
    return {'obligations': obs, 'functions': training.FUNCTIONS[:9],
            'assumptions': [
                'event contracts (A3): Module.train()/eval() set the training flag of every sub-module; Optimizer.zero_grad()/step() and Tensor.backward() are ghost events; tqdm iterates exactly its iterable; range(k) has exactly k elements',
                'the epoch loop of the real fit() is cut mechanically: ONE arbitrary iteration is executed from a havocked state (symbolic n_epochs, n_paths, init_state) and its event sequence compared with the documented protocol; with "the loop iterates range(n_epochs)" this gives the trace E^k for every k',
                'determinism: equal event traces under the same RNG state give equal parameters (torch deterministic given the operation sequence) - assumed for the "same parameters as an explicit loop" clause; the replay script checks it concretely',
                'n_times enumerated in {1,2,3}; what a concrete optimiser does inside step() is not covered',
            ],
            'level': 'proof', 'trusted_base': ['pfv executor + cutloops', 'ghost event trace in the torch shim'],
            'note': 'fit/_configure_optimizer/compute_loss/ensemble_mean run from /repo with a recording criterion and a simulating stub underlier.'}
